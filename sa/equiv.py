"""E12 - behaviour-preservation prover: is a function the same state transformer as its confirmed baseline version?

The rule tables of this checker were confirmed construct by construct on the baseline tree.  When a later tree
spells a function differently the rules may no longer recognise their anchors - although nothing a property talks
about has changed.  Before any rule runs, every function whose (canonicalised) syntax differs from the baseline's
is compared with it here; if the two are proven equivalent the baseline spelling is analysed in its place, so all
verdicts are invariant under edits this prover can see through.  If they are not proven equivalent the current
spelling is analysed as it is - a behaviour change is never hidden: the prover only ever answers "equivalent" when
both functions have the same guarded normal form, that is

  * the same signature, decorators and nested definitions (text),
  * after renaming locals by first binding (alpha), identical statements are skipped front and back, and the
    differing middle regions are compared as guarded normal forms (sa/summ.py, safe mode):
      - for every consistent truth assignment of the branch atoms: the same ordered effects (stores, expression
        statements, deletes, raises, with/try/finally/except extents, loop headers, one symbolic iteration of each
        loop body incl. the values carried to the next iteration, nested definitions) and the same result
        (returned expression / raised exception / fall through with the same final values of the locals the region
        assigns);
      - a temporary stands for its defining expression only while no heap-changing effect intervenes.
  * regions too large to enumerate are split structurally (same compound statement, same header) and compared part
    by part; otherwise the answer is "not proven".

Nothing is executed.  The comparison is purely on normal forms; no solver, no sampling.
"""
import ast
import os
import copy

from . import summ, nf
from .model import src

MAX_REGION_PATHS = 400


def _strip_doc(body):
    if body and isinstance(body[0], ast.Expr) and isinstance(body[0].value, ast.Constant) and isinstance(body[0].value.value, str):
        return body[1:]
    return body


def _dump(n):
    return ast.dump(n, include_attributes=False)


VALUE_KINDS = {"store", "let", "new", "carry", "final", "call", "yield", "enter", "enter-loop", "expr"}


def effect_text(ef):
    k, t, e = ef
    if k in VALUE_KINDS and isinstance(e, ast.AST) and isinstance(e, ast.expr):
        return "%s %s := %s" % (k, t, summ.arith_text(e))
    return "%s %s" % (k, t)


def _inline_new(effs, result):
    """An object with identity that is read exactly once (right where it is declared) needs no name."""
    effs = list(effs)
    i = 0
    while i < len(effs):
        k, nm, v = effs[i]
        if k == "new":
            later = [e for _, _, e in effs[i + 1:] if isinstance(e, ast.expr)]
            later_t = [t for kk, t, _ in effs[i + 1:] if kk in ("store", "del", "with")]
            if result and isinstance(result[1], ast.AST):
                later.append(result[1])
            uses = sum(1 for e in later for x in ast.walk(e) if isinstance(x, ast.Name) and x.id == nm)
            text_uses = sum(1 for t in later_t if nm in t.replace("[", " ").replace(".", " ").replace("]", " ").split())
            if uses == 1 and text_uses == 0:
                class R(ast.NodeTransformer):
                    def visit_Name(self, n):
                        return copy.deepcopy(v) if n.id == nm else n
                new = []
                for kk, t, e in effs[i + 1:]:
                    new.append((kk, t, R().visit(copy.deepcopy(e)) if isinstance(e, ast.expr) else e))
                effs[i:] = new
                if result and isinstance(result[1], ast.AST):
                    result = (result[0], R().visit(copy.deepcopy(result[1])))
                continue
        i += 1
    return effs, result


def full_outcome(p):
    effs, res = _inline_new(p.effects, p.result)
    p_result = res
    k, e = p_result if p_result else ("none", None)
    if k in ("return", "raise"):
        # leaving a loop by `break` only to return is leaving it by `return`
        while effs and effs[-1][0] == "endloop":
            j = len(effs) - 2
            while j >= 0 and effs[j][0] == "carry":
                j -= 1
            if j >= 0 and effs[j][0] == "break" and effs[j][1] == effs[-1][1]:
                del effs[j:]
            else:
                break
    parts = [effect_text(ef) for ef in effs]
    if k == "raise":
        # the exception's type is what callers can observe and properties talk about; its message text is not compared
        t = e
        if isinstance(t, ast.Tuple) and t.elts:
            t = t.elts[0]
        parts.append("raise %s" % (src(t.func) if isinstance(t, ast.Call) else (src(t) if t is not None else "")))
    elif k == "return":
        parts.append("%s %s" % (k, summ.arith_text(e) if e is not None else ""))
    else:
        parts.append(k)
    return " ;; ".join(parts)


def _assigned_names(stmts):
    out = set()
    for st in stmts:
        for n in ast.walk(st):
            if isinstance(n, ast.Name) and isinstance(n.ctx, (ast.Store, ast.Del)):
                out.add(n.id)
            elif isinstance(n, ast.ExceptHandler) and n.name:
                out.add(n.name)
            elif isinstance(n, (ast.Import, ast.ImportFrom)):
                for al in n.names:
                    out.add((al.asname or al.name).split(".")[0])
    return out


def _loads(nodes):
    out = {}
    for st in nodes:
        for n in ast.walk(st):
            if isinstance(n, ast.Name) and isinstance(n.ctx, ast.Load):
                out[n.id] = out.get(n.id, 0) + 1
    return out


DEBUG = []


LOOSE = [False]


def loose_outcome(p):
    """Projection used by the loose comparison: what the region stores, which statements it executes for their effect, what
    a loop hands on, how it ends."""
    lens = summ.len_facts(p)
    parts = []
    breaks = []
    for k, t, e in p.effects:
        if k == "store":
            parts.append("%s = %s" % (t, summ.arith_text(e, lens)))
        elif k == "expr":
            parts.append("do " + summ.arith_text(e, lens))
        elif k == "carry":
            parts.append("next %s = %s" % (t, summ.arith_text(e, lens)))
        elif k == "jump" and t == "break":
            # `continue` only ends the iteration: the same as reaching the end of the body.  A `break` is recorded, but not
            # where between the stores of its path: `x = v; break` and `break` followed by `x = v` after the loop are the
            # same path (nothing else of the loop runs after a break)
            breaks.append("jump break")
        elif k in ("del", "with"):
            parts.append("%s %s" % (k, t))
        elif k == "final":
            parts.append("final %s = %s" % (t, summ.arith_text(e, lens) if isinstance(e, ast.AST) else e))
    parts += breaks
    k, e = p.result if p.result else ("none", None)
    if k == "raise":
        parts.append("raise %s" % (src(e.func) if isinstance(e, ast.Call) else (src(e) if e is not None else "")))
    elif k == "return":
        parts.append("return " + summ.arith_text(e, lens))
    else:
        parts.append(k)
    return " ;; ".join(parts)


def region_loosely_equivalent(ra, rb, fa=None, fb=None):
    names = _assigned_names(ra) | _assigned_names(rb)
    if fa is not None and fb is not None:
        names &= (set(_loads(fa)) | set(_loads(fb)))
    try:
        pa = summ.Summariser(ra, "<current>", loops="body", final_names=sorted(names), max_paths=MAX_REGION_PATHS).run()
        pb = summ.Summariser(rb, "<baseline>", loops="body", final_names=sorted(names), max_paths=MAX_REGION_PATHS).run()
    except summ.Unsupported:
        return None
    except RecursionError:
        return None
    pa, pb = summ.boolify(pa), summ.boolify(pb)
    ok, det = summ.compare(summ.table(pa, loose_outcome), summ.table(pb, loose_outcome))
    if DEBUG is not None and len(DEBUG) < 50:
        DEBUG.append((len(ra), len(rb), len(pa), len(pb), ok, "loose: " + det[:1500]))
    return ok


def region_equivalent(ra, rb, fa=None, fb=None):
    if LOOSE[0]:
        return region_loosely_equivalent(ra, rb, fa, fb)
    return _region_equivalent(ra, rb, fa, fb)


def _region_equivalent(ra, rb, fa=None, fb=None):
    """True / False / None (not computable) for two statement lists read as state transformers.
    fa / fb: the statements that can run after the region in each function (None: unknown, every assigned name counts);
    a name assigned in the region but never read afterwards is dead and its final value is not compared."""
    names = _assigned_names(ra) | _assigned_names(rb)
    if fa is not None and fb is not None:
        names &= (set(_loads(fa)) | set(_loads(fb)))
    names = sorted(names)
    try:
        live = (set(_loads(fa)) | set(_loads(fb))) if (fa is not None and fb is not None) else set(_assigned_names(ra) | _assigned_names(rb))
        pa = nf.NF(ra, final_names=names, max_paths=MAX_REGION_PATHS, live_after=live).run()
        pb = nf.NF(rb, final_names=names, max_paths=MAX_REGION_PATHS, live_after=live).run()
    except summ.Unsupported as e:
        if DEBUG is not None and len(DEBUG) < 50:
            DEBUG.append((len(ra), len(rb), 0, 0, None, "not computable: %s" % e))
        return None
    except RecursionError:
        return None
    if len(pa) > MAX_REGION_PATHS or len(pb) > MAX_REGION_PATHS:
        return None
    pa, pb = summ.boolify(pa), summ.boolify(pb)
    ta = summ.table(pa, full_outcome)
    tb = summ.table(pb, full_outcome)
    ok, det = summ.compare(ta, tb)
    if DEBUG is not None and len(DEBUG) < 50:
        DEBUG.append((len(ra), len(rb), len(pa), len(pb), ok, det[:1500]))
    return ok


def blocks_equivalent(sa_, sb_, depth=0, ta=(), tb=()):
    """Statement lists; ta / tb: what can run after them in their functions."""
    summ.check_deadline()
    sa_, sb_ = list(sa_), list(sb_)
    ta, tb = list(ta), list(tb)
    # identical statements front and back need no proof
    while sa_ and sb_ and _dump(sa_[0]) == _dump(sb_[0]):
        sa_.pop(0)
        sb_.pop(0)
    full_a, full_b = list(sa_), list(sb_)
    cut_a, cut_b = [], []
    while sa_ and sb_ and _dump(sa_[-1]) == _dump(sb_[-1]):
        cut_a.insert(0, sa_.pop())
        cut_b.insert(0, sb_.pop())
    if not sa_ and not sb_:
        return True
    r = region_equivalent(sa_, sb_, cut_a + ta, cut_b + tb)
    if r:
        return True
    if cut_a:
        # one side may leave early where the other runs on into the common tail: compare with the tail included
        r2 = region_equivalent(full_a, full_b, ta, tb)
        if r2:
            return True
        if r is not None and r2 is not None:
            return False
    elif r is not None:
        return r
    ta2, tb2 = cut_a + ta, cut_b + tb
    # too large: same compound statement with the same header -> compare the parts
    if len(sa_) == 1 and len(sb_) == 1 and type(sa_[0]) is type(sb_[0]) and depth < 12:
        a, b = sa_[0], sb_[0]
        if isinstance(a, ast.If) and _dump(a.test) == _dump(b.test):
            return blocks_equivalent(a.body, b.body, depth + 1, ta2, tb2) and blocks_equivalent(a.orelse, b.orelse, depth + 1, ta2, tb2)
        if isinstance(a, (ast.For, ast.AsyncFor)) and _dump(a.target) == _dump(b.target) and _dump(a.iter) == _dump(b.iter):
            return blocks_equivalent(a.body, b.body, depth + 1, [a] + ta2, [b] + tb2) and blocks_equivalent(a.orelse, b.orelse, depth + 1, ta2, tb2)
        if isinstance(a, ast.While) and _dump(a.test) == _dump(b.test):
            return blocks_equivalent(a.body, b.body, depth + 1, [a] + ta2, [b] + tb2) and blocks_equivalent(a.orelse, b.orelse, depth + 1, ta2, tb2)
        if isinstance(a, (ast.With, ast.AsyncWith)) and [_dump(i) for i in a.items] == [_dump(i) for i in b.items]:
            return blocks_equivalent(a.body, b.body, depth + 1, ta2, tb2)
        if isinstance(a, ast.Try) and len(a.handlers) == len(b.handlers) and \
                all(_dump(x.type) == _dump(y.type) if (x.type is not None and y.type is not None) else x.type is y.type for x, y in zip(a.handlers, b.handlers)) and \
                all(x.name == y.name for x, y in zip(a.handlers, b.handlers)):
            # anything in the statement may run after a part of it (handlers, finally)
            return blocks_equivalent(a.body, b.body, depth + 1, [a] + ta2, [b] + tb2) and blocks_equivalent(a.orelse, b.orelse, depth + 1, [a] + ta2, [b] + tb2) and \
                blocks_equivalent(a.finalbody, b.finalbody, depth + 1, ta2, tb2) and \
                all(blocks_equivalent(x.body, y.body, depth + 1, [a] + ta2, [b] + tb2) for x, y in zip(a.handlers, b.handlers))
    # several statements: pair them one to one when the counts agree
    if len(sa_) == len(sb_) and len(sa_) > 1 and depth < 12:
        if all(blocks_equivalent([x], [y], depth + 1, sa_[i + 1:] + ta2, sb_[i + 1:] + tb2) for i, (x, y) in enumerate(zip(sa_, sb_))):
            return True
    # identical statements inside the region split it into independent parts
    if len(sa_) + len(sb_) > 2 and depth < 12:
        import difflib
        da, db = [_dump(x) for x in sa_], [_dump(x) for x in sb_]
        ops = difflib.SequenceMatcher(None, da, db, autojunk=False).get_opcodes()
        if any(tag == "equal" for tag, *_ in ops):
            ok = True
            for tag, i1, i2, j1, j2 in ops:
                if tag == "equal":
                    continue
                if not blocks_equivalent(sa_[i1:i2], sb_[j1:j2], depth + 1, sa_[i2:] + ta2, sb_[j2:] + tb2):
                    # one side may leave early where the other runs on: compare everything from here to the end
                    rest_a, rest_b = sa_[i1:] + cut_a, sb_[j1:] + cut_b
                    if (i1, j1) != (0, 0):
                        ok = blocks_equivalent(rest_a, rest_b, depth + 1, ta, tb)
                    else:
                        ok = region_equivalent(rest_a, rest_b, ta, tb) is True
                    break
            return ok
    return False


def _adopt_equivalent_nested(body_a, body_b, depth=0):
    """Nested definitions (closures, classes in functions) that are proven equivalent to their baseline counterpart are
    replaced by it, so that the enclosing function's comparison (which reads nested definitions as text) succeeds."""
    if depth > 4:
        return
    by_name = {}
    for st in _iter_defs(body_b):
        by_name.setdefault((type(st).__name__, st.name), []).append(st)
    seen = {}
    for holder, i, st in _iter_defs_pos(body_a):
        key = (type(st).__name__, st.name)
        k = seen.get(key, 0)
        seen[key] = k + 1
        cands = by_name.get(key, [])
        if k >= len(cands):
            continue
        base = cands[k]
        if _dump(st) == _dump(base):
            continue
        if isinstance(st, ast.ClassDef):
            _adopt_equivalent_nested(st.body, base.body, depth + 1)
            continue
        ok, _ = functions_equivalent(st, base)
        if ok:
            holder[i] = copy.deepcopy(base)


def _iter_defs(body):
    for st in body:
        if isinstance(st, (ast.FunctionDef, ast.AsyncFunctionDef, ast.ClassDef)):
            yield st
        elif isinstance(st, (ast.If, ast.Try, ast.With, ast.For, ast.While)):
            for fld in ("body", "orelse", "finalbody"):
                for x in _iter_defs(getattr(st, fld, []) or []):
                    yield x
            for h in getattr(st, "handlers", []) or []:
                for x in _iter_defs(h.body):
                    yield x


def _iter_defs_pos(body):
    for i, st in enumerate(body):
        if isinstance(st, (ast.FunctionDef, ast.AsyncFunctionDef, ast.ClassDef)):
            yield body, i, st
        elif isinstance(st, (ast.If, ast.Try, ast.With, ast.For, ast.While)):
            for fld in ("body", "orelse", "finalbody"):
                for x in _iter_defs_pos(getattr(st, fld, []) or []):
                    yield x
            for h in getattr(st, "handlers", []) or []:
                for x in _iter_defs_pos(h.body):
                    yield x


def infer_pure(tree):
    """(pure module-level function names, {class name: pure method names}) of a module: a function is pure here when it
    stores to no attribute / item, declares no global, does not yield and calls only pure things (fixpoint)."""
    funcs = dict((st.name, st) for st in tree.body if isinstance(st, ast.FunctionDef))
    classes = dict((st.name, dict((m.name, m) for m in st.body if isinstance(m, ast.FunctionDef))) for st in ast.walk(tree) if isinstance(st, ast.ClassDef))

    def locally_clean(fn):
        for x in ast.walk(fn):
            if isinstance(x, (ast.Attribute, ast.Subscript)) and isinstance(x.ctx, (ast.Store, ast.Del)):
                return False
            if isinstance(x, (ast.Global, ast.Nonlocal, ast.Yield, ast.YieldFrom, ast.Await, ast.With, ast.Import, ast.ImportFrom)):
                return False
            if isinstance(x, (ast.For, ast.comprehension)) and isinstance(x.iter, ast.Name) and x.iter.id == "self":
                return False        # iterating the object runs its generator (cache, lock)
        return True
    pure_f = set(n for n, f in funcs.items() if locally_clean(f))
    pure_m = dict((c, set(n for n, f in ms.items() if locally_clean(f))) for c, ms in classes.items())
    changed = True
    while changed:
        changed = False
        saved = (set(nf.EXTRA_PURE_FUNCS), set(nf.EXTRA_PURE_SELF_METHODS))
        for n in sorted(pure_f):
            nf.EXTRA_PURE_FUNCS, nf.EXTRA_PURE_SELF_METHODS = set(pure_f), set()
            if any(isinstance(x, ast.Call) and not nf.is_pure_call(x) for x in ast.walk(funcs[n])):
                pure_f.discard(n)
                changed = True
        for c, ms in pure_m.items():
            for n in sorted(ms):
                nf.EXTRA_PURE_FUNCS, nf.EXTRA_PURE_SELF_METHODS = set(pure_f), set(ms)
                if any(isinstance(x, ast.Call) and not nf.is_pure_call(x) for x in ast.walk(classes[c][n])):
                    ms.discard(n)
                    changed = True
        nf.EXTRA_PURE_FUNCS, nf.EXTRA_PURE_SELF_METHODS = saved
    return pure_f, pure_m


def functions_loosely_equivalent(fa, fb):
    """The same alignment as the prover, with regions compared as projected tables of the copy-propagating normal form
    (sa/summ.py): enough to see that two spellings compute the same stores / effects / results when temporaries are
    propagated freely - NOT a proof (order of heap reads against heap changes is ignored), so it never licenses replacing
    the function; it only tells a re-spelled function from a changed one."""
    LOOSE[0] = True
    try:
        return functions_equivalent(fa, fb)
    finally:
        LOOSE[0] = False


PROOF_BUDGET_S = float(os.environ.get("VERIF_PROOF_BUDGET", "40"))


def functions_equivalent(fa, fb):
    """(equivalent, reason) for two FunctionDef nodes (current, baseline).  One attempt has a wall-clock budget: a function
    that cannot be proven equivalent within it is simply not proven (and is then analysed as it is written)."""
    import time
    outer = summ.DEADLINE[0]
    if outer is None:       # (a caller that makes several attempts on one function sets one budget for all of them)
        summ.DEADLINE[0] = time.time() + PROOF_BUDGET_S
    try:
        return _functions_equivalent(fa, fb)
    except summ.Unsupported as e:
        return False, "not proven equivalent (%s)" % e
    finally:
        summ.DEADLINE[0] = outer


def _functions_equivalent(fa, fb):
    if type(fa) is not type(fb):
        return False, "different kind of definition"
    if _dump(fa.args) != _dump(fb.args):
        return False, "signature differs"
    if [_dump(d) for d in fa.decorator_list] != [_dump(d) for d in fb.decorator_list]:
        return False, "decorators differ"
    if _dump(fa) == _dump(fb):
        return True, "identical"
    if any(True for _ in _iter_defs(fa.body)):
        fa = copy.deepcopy(fa)
        _adopt_equivalent_nested(fa.body, fb.body)
        if _dump(fa) == _dump(fb):
            return True, "nested definitions equivalent"
    try:
        # the names as written first (most edits keep them), then with locals renamed by first binding
        if blocks_equivalent(_strip_doc(fa.body), _strip_doc(fb.body), 0, [], []):
            return True, "guarded normal forms agree"
        # locals the two versions do not share, renamed by first binding (a renamed local, a new or dropped temporary)
        from .canon import local_names
        common = local_names(fa) & local_names(fb)
        A = summ.alpha_rename(fa, keep=common, prefix="u")
        B = summ.alpha_rename(fb, keep=common, prefix="u")
        if blocks_equivalent(_strip_doc(A.body), _strip_doc(B.body), 0, [], []):
            return True, "guarded normal forms agree (unshared locals renamed)"
        A = summ.alpha_rename(fa)
        B = summ.alpha_rename(fb)
        ok = blocks_equivalent(_strip_doc(A.body), _strip_doc(B.body), 0, [], [])
    except RecursionError:
        return False, "too deep"
    return ok, "guarded normal forms agree (locals renamed)" if ok else "not proven equivalent"
