#!/venv/bin/python
"""Regenerate /verif/MANIFEST.json from the property modules present in sa/props (development helper)."""
import importlib, json, os, sys
V = os.path.dirname(os.path.dirname(os.path.abspath(__file__)))
sys.path.insert(0, V)
props = [json.loads(l) for l in open(os.path.join(V, "properties.jsonl"))]
checks, na = [], []
NA_REASONS = {}
try:
    NA_REASONS = json.load(open(os.path.join(V, "tools", "not_applicable.json")))
except Exception:
    pass
for p in props:
    pid = p["id"]
    path = os.path.join(V, "sa", "props", pid.lower() + ".py")
    if not os.path.exists(path):
        na.append({"property_id": pid, "reason": NA_REASONS.get(pid, "no static rule armed yet for this property (checker under construction); nothing is claimed")})
        continue
    m = importlib.import_module("sa.props." + pid.lower())
    checks.append({
        "property_id": pid,
        "quick_cmd": "/venv/bin/python sa/check.py %s --tier quick" % pid,
        "thorough_cmd": "/venv/bin/python sa/check.py %s --tier thorough" % pid,
        "evidence_file": "evidence/%s.json" % pid,
        "replay_cmd_template": "/venv/bin/python sa/check.py --replay {path}",
        "engine": "sa",
        "level_claimed": {"category": "other", "text": m.CLAIM, "design_ref": "DESIGN.md section 3, " + pid},
        "level_note": "; ".join(m.ASSUMPTIONS),
        "technique": getattr(m, "TECHNIQUE", "static analysis over ast: CFG dataflow / dominance / set comparison") +
        "; guarded normal forms (if-conversion + copy propagation) compared as tables with the confirmed baseline, differential presence-test and call-site/signature agreement rules, "
        "equivalence prover on effect-sequence normal forms so that verdicts survive behaviour-preserving edits (all on the ast; nothing executed)",
    })
man = {
    "version": 1,
    "setup_cmd": "true",
    "hooks": {
        "guard": "DATEUTIL_VERIF",
        "enable": "none needed: the checks parse /repo/src/dateutil with ast and never import or run it; no hook code exists in /repo",
        "baseline_off_cmd": "cd /repo && /venv/bin/python -m pytest -ra -q -p no:cacheprovider --timeout=900 --continue-on-collection-errors",
        "source_commits": [],
        "add_only": True,
    },
    "engines": [{
        "name": "sa",
        "path": "sa/",
        "serves_properties": [c["property_id"] for c in checks],
        "kind_free_text": "repository-specific static analyser over CPython ast: program model (classes, MRO, aliases, decorators, callee resolution), statement-level CFG with exceptional and generator-abandon edges, forward dataflow (lock typestate, must-hold branch facts, intervals, nullness), exception-escape effect analysis, time-unit inference, constant-table folding, field-coverage and sibling-agreement set comparisons; a canonical view of changed code (new helpers / constants / temporaries inlined), guarded normal forms compared as decision tables with reference snippets and with the confirmed baseline source (sa/baseline_src.json), and an equivalence prover on effect-sequence normal forms that lets every rule analyse the confirmed spelling of a function proven unchanged. Nothing from /repo is imported or executed.",
    }],
    "checks": checks,
    "not_applicable": na,
    "notes": "Every claim is partial: structural necessary conditions of the property decided from source; the value-level behavioural core of each property is declared NOT decided (see DESIGN.md section 3 and each check's level_claimed.text). Exit 2 + ANALYSIS-ERROR = the analyser could not decide on confirmed (or proven-equivalent) code (anchor vanished / idiom not modelled / checker fault); an anchor missing from a function that was changed and is not proven equivalent is reported as a violation (exit 1); nothing passes silently. known_findings.json lists genuine defects (fixed ones suppress nothing).",
}
json.dump(man, open(os.path.join(V, "MANIFEST.json"), "w"), indent=1)
print("claimed:", [c["property_id"] for c in checks], "n/a:", len(na))
