#!/venv/bin/python
"""Behaviour-preserving refactorings written by independent sub-agents: confirm that the pinned suite (and
tests/test_isoparser.py) still passes with each, store them under seeded/benign/<id>/ and run every check on a scratch
copy with the refactoring applied.  Any non-zero exit is a FALSE ALARM of the checker (or an over-strict rule).
Usage: tools/eval_benign.py [Bxx ...]"""
import json, os, shutil, subprocess, sys, tempfile, glob, concurrent.futures as cf
V = os.path.dirname(os.path.dirname(os.path.abspath(__file__)))
OUT = "/tmp/wt/outb"
props = [json.loads(l)["id"] for l in open(os.path.join(V, "properties.jsonl"))]
sel = sys.argv[1:]
jobs = []
for d in sorted(glob.glob(os.path.join(OUT, "B*", "r*")) + glob.glob(os.path.join(OUT + "2", "B*", "r*")) + glob.glob(os.path.join(OUT + "3", "B*", "r*")) + glob.glob(os.path.join(OUT + "4", "B*", "r*"))):
    if os.path.exists(os.path.join(d, "patch.diff")):
        bid = os.path.basename(os.path.dirname(d)) + "-" + os.path.basename(d)
        if not sel or any(bid.startswith(s) for s in sel):
            jobs.append((bid, d))
for d in sorted(glob.glob(os.path.join(V, "seeded", "benign", "*"))):
    bid = os.path.basename(d)
    if bid not in [j[0] for j in jobs] and os.path.exists(os.path.join(d, "patch.diff")) and (not sel or any(bid.startswith(s) for s in sel)):
        jobs.append((bid, d))

def run(job):
    bid, d = job
    out = {"id": bid, "alarms": [], "confirmed": None}
    dst = os.path.join(V, "seeded", "benign", bid)
    if not os.path.exists(os.path.join(dst, "meta.json")):
        wt = "/tmp/wt/confirm_" + bid
        subprocess.run(["git", "-C", "/repo", "worktree", "remove", "--force", wt], capture_output=True)
        subprocess.run(["git", "-C", "/repo", "worktree", "add", "-q", "--detach", wt, "HEAD"], check=True, capture_output=True)
        try:
            ap = subprocess.run(["git", "-C", wt, "apply", os.path.join(d, "patch.diff")], capture_output=True, text=True)
            if ap.returncode != 0:
                out["confirmed"] = False; out["why"] = "patch does not apply"; return out
            b = subprocess.run(["/tmp/wt/baseline_check.py", wt], capture_output=True, text=True, timeout=900)
            env = dict(os.environ, PYTHONPATH=os.path.join(wt, "src"))
            iso = subprocess.run(["/venv/bin/python", "-m", "pytest", "-q", "-p", "no:cacheprovider", "-W", "ignore::pytest.PytestRemovedIn10Warning", "tests/test_isoparser.py"], cwd=wt, env=env, capture_output=True, text=True)
            out["confirmed"] = b.returncode == 0 and iso.returncode == 0
            out["baseline"] = b.stdout.strip().splitlines()[0] if b.stdout else ""
            if out["confirmed"]:
                os.makedirs(dst, exist_ok=True)
                shutil.copy(os.path.join(d, "patch.diff"), dst)
                meta = {}
                try: meta = json.load(open(os.path.join(d, "meta.json")))
                except Exception: pass
                meta.update({"kind": "behaviour-preserving refactoring", "origin": "independent sub-agent", "pinned_suite_with_patch": out["baseline"], "test_isoparser_with_patch": "passed"})
                json.dump(meta, open(os.path.join(dst, "meta.json"), "w"), indent=1)
        finally:
            subprocess.run(["git", "-C", "/repo", "worktree", "remove", "--force", wt], capture_output=True)
        if not out["confirmed"]:
            return out
    else:
        out["confirmed"] = True
    tmp = tempfile.mkdtemp(prefix="sa_ben_")
    try:
        shutil.copytree("/repo/src", os.path.join(tmp, "src"))
        r = subprocess.run(["patch", "-p1", "-s", "-d", tmp, "-i", os.path.join(dst, "patch.diff")], capture_output=True, text=True)
        if r.returncode != 0:
            out["alarms"].append("patch failed on current tree"); return out
        env = dict(os.environ, VERIF_REPO=tmp, VERIF_EVIDENCE_DIR=os.path.join(tmp, "evidence"))
        for p in props:
            r = subprocess.run(["/venv/bin/python", os.path.join(V, "sa", "check.py"), p], env=env, capture_output=True, text=True, cwd=V)
            if r.returncode != 0:
                lines = [l.strip() for l in r.stdout.splitlines() if l.strip().startswith(("rule=", "construct:", "ANALYSIS-ERROR"))]
                out["alarms"].append("%s rc=%d %s" % (p, r.returncode, " | ".join(lines[:6])))
    finally:
        shutil.rmtree(tmp, ignore_errors=True)
    return out

res = []
with cf.ThreadPoolExecutor(max_workers=6) as ex:
    for r in ex.map(run, jobs):
        print("%-8s %s %s" % (r["id"], "silent" if (r["confirmed"] and not r["alarms"]) else ("NOT-CONFIRMED " + r.get("why", r.get("baseline", "")) if not r["confirmed"] else "FALSE-ALARM"), ""))
        for a in r["alarms"]:
            print("      ", a[:400])
        res.append(r)
ok = [r for r in res if r["confirmed"]]
print("TOTAL %d refactorings confirmed, %d silent, %d with alarms" % (len(ok), sum(1 for r in ok if not r["alarms"]), sum(1 for r in ok if r["alarms"])))
if not sel:
    # a complete run: record the verdicts (the self-validation battery and DESIGN.md's table read this file)
    byid = dict((r["id"], r) for r in ok)
    idx = {"refactorings": [{"id": os.path.basename(d), "alarms": byid.get(os.path.basename(d), {}).get("alarms", [])}
                            for d in sorted(glob.glob(os.path.join(V, "seeded", "benign", "*"))) if os.path.exists(os.path.join(d, "patch.diff"))]}
    json.dump(idx, open(os.path.join(V, "seeded", "BENIGN.json"), "w"), indent=1)
