#!/venv/bin/python
"""Run every claimed check against every seeded change (scratch copy of /repo/src + patch, never executed) and
tabulate which checks fire.  Writes seeded/RESULTS.json.  Usage: tools/eval_seeded.py [--merge] [id-prefix ...]"""
import json, os, shutil, subprocess, sys, tempfile, glob, concurrent.futures as cf
V = os.path.dirname(os.path.dirname(os.path.abspath(__file__)))
props = [json.loads(l)["id"] for l in open(os.path.join(V, "properties.jsonl"))]
props = [p for p in props if os.path.exists(os.path.join(V, "sa", "props", p.lower() + ".py"))]
sel = sys.argv[1:]
MERGE = "--merge" in sel   # update the entries of the selected ids in seeded/RESULTS.json, keep the others
sel = [a for a in sel if a != "--merge"]
ids = sorted(d for d in os.listdir(os.path.join(V, "seeded")) if os.path.exists(os.path.join(V, "seeded", d, "patch.diff")))
if sel:
    ids = [i for i in ids if any(i.startswith(s) for s in sel)]

def run(sid):
    tmp = tempfile.mkdtemp(prefix="sa_seed_")
    out = {"id": sid, "fired": [], "errors": [], "rules": []}
    try:
        shutil.copytree("/repo/src", os.path.join(tmp, "src"))
        r = subprocess.run(["patch", "-p1", "-s", "-d", tmp, "-i", os.path.join(V, "seeded", sid, "patch.diff")], capture_output=True, text=True)
        if r.returncode != 0:
            out["errors"].append("patch failed: " + r.stdout[-200:])
            return out
        env = dict(os.environ, VERIF_REPO=tmp, VERIF_EVIDENCE_DIR=os.path.join(tmp, "evidence"))
        for p in props:
            r = subprocess.run(["/venv/bin/python", os.path.join(V, "sa", "check.py"), p], env=env, capture_output=True, text=True, cwd=V)
            if r.returncode == 1:
                out["fired"].append(p)
                for line in r.stdout.splitlines():
                    if line.strip().startswith("rule="):
                        out["rules"].append(line.strip().split()[0][5:])
            elif r.returncode != 0:
                out["errors"].append("%s rc=%d %s" % (p, r.returncode, [l for l in r.stdout.splitlines() if "ANALYSIS-ERROR" in l][:1]))
    finally:
        shutil.rmtree(tmp, ignore_errors=True)
    out["rules"] = sorted(set(out["rules"]))
    return out

res = []
with cf.ThreadPoolExecutor(max_workers=int(os.environ.get("EVAL_JOBS", "8"))) as ex:
    for r in ex.map(run, ids):
        own = r["id"].split("-")[0]
        status = "CAUGHT" if r["fired"] else ("ERROR" if r["errors"] else "missed")
        print("%-8s %-7s fired=%s rules=%s %s" % (r["id"], status, ",".join(r["fired"]), ",".join(r["rules"]), "; ".join(r["errors"])))
        res.append(r)
caught = sum(1 for r in res if r["fired"])
print("TOTAL %d seeded, caught %d, analysis-error-only %d, missed %d (claimed checks: %s)" % (
    len(res), caught, sum(1 for r in res if not r["fired"] and r["errors"]), sum(1 for r in res if not r["fired"] and not r["errors"]), ",".join(props)))
if MERGE and sel:
    old = json.load(open(os.path.join(V, "seeded", "RESULTS.json")))
    byid = {r["id"]: r for r in old["results"]}
    byid.update({r["id"]: r for r in res})
    json.dump({"claimed_checks": props, "results": [byid[k] for k in sorted(byid)]}, open(os.path.join(V, "seeded", "RESULTS.json"), "w"), indent=1)
elif not sel:
    json.dump({"claimed_checks": props, "results": res}, open(os.path.join(V, "seeded", "RESULTS.json"), "w"), indent=1)
