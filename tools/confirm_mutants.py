#!/venv/bin/python
"""Confirm sub-agent mutants independently and store them under /verif/seeded/<prop>-<k>/.
For each /tmp/wt/out/Cxx/mK: in a fresh scratch worktree of /repo HEAD (removed afterwards):
  demo.py on the clean tree must exit 0; patch must apply; pinned suite must keep all 1424 baseline passes;
  demo.py on the patched tree must exit 1.
Usage: tools/confirm_mutants.py [Cxx ...]   (development helper; runs repo code - never part of a registered check)"""
import json, os, shutil, subprocess, sys, glob, concurrent.futures as cf
V = os.path.dirname(os.path.dirname(os.path.abspath(__file__)))
OUT = os.environ.get("MUT_OUT", "/tmp/wt/out")
TAG = os.environ.get("MUT_TAG", "")
props = sys.argv[1:] or sorted(x for x in os.listdir(OUT) if os.path.isdir(os.path.join(OUT, x)))
jobs = []
for p in props:
    for d in sorted(glob.glob(os.path.join(OUT, p, "m*"))):
        if os.path.exists(os.path.join(d, "patch.diff")) and os.path.exists(os.path.join(d, "demo.py")):
            sid = "%s-%s%s" % (p, TAG, os.path.basename(d))
            if not os.path.exists(os.path.join(V, "seeded", sid, "meta.json")):
                jobs.append((p, d, sid))

def run(job):
    p, d, sid = job
    wt = "/tmp/wt/confirm_" + sid
    subprocess.run(["git", "-C", "/repo", "worktree", "remove", "--force", wt], capture_output=True)
    subprocess.run(["git", "-C", "/repo", "worktree", "add", "-q", "--detach", wt, "HEAD"], check=True, capture_output=True)
    env = dict(os.environ, PYTHONPATH=os.path.join(wt, "src"))
    res = {"id": sid}
    try:
        r0 = subprocess.run(["/venv/bin/python", os.path.join(d, "demo.py")], env=env, capture_output=True, text=True, timeout=300, cwd=wt)
        res["demo_clean_rc"] = r0.returncode
        ap = subprocess.run(["git", "-C", wt, "apply", os.path.join(d, "patch.diff")], capture_output=True, text=True)
        res["apply_rc"] = ap.returncode
        if ap.returncode == 0:
            b = subprocess.run(["/tmp/wt/baseline_check.py", wt], capture_output=True, text=True, timeout=900)
            res["baseline"] = b.stdout.strip().splitlines()[0] if b.stdout else b.stderr[-200:]
            res["baseline_rc"] = b.returncode
            r1 = subprocess.run(["/venv/bin/python", os.path.join(d, "demo.py")], env=env, capture_output=True, text=True, timeout=300, cwd=wt)
            res["demo_patched_rc"] = r1.returncode
            res["demo_patched_tail"] = (r1.stdout + r1.stderr)[-400:]
        ok = res.get("demo_clean_rc") == 0 and res.get("apply_rc") == 0 and res.get("baseline_rc") == 0 and res.get("demo_patched_rc") == 1
        res["confirmed"] = ok
        if ok:
            dst = os.path.join(V, "seeded", sid)
            os.makedirs(dst, exist_ok=True)
            shutil.copy(os.path.join(d, "patch.diff"), dst)
            shutil.copy(os.path.join(d, "demo.py"), dst)
            meta = {}
            try:
                meta = json.load(open(os.path.join(d, "meta.json")))
            except Exception:
                pass
            meta.update({"property": p, "origin": "independent sub-agent given only the property text and a scratch worktree",
                         "confirmed_by": "tools/confirm_mutants.py in a fresh worktree of /repo HEAD",
                         "ran": {"demo_on_clean_tree_exit": 0, "demo_on_patched_tree_exit": 1, "pinned_suite_with_patch": res["baseline"]},
                         "repo_head": subprocess.run(["git", "-C", "/repo", "rev-parse", "--short", "HEAD"], capture_output=True, text=True).stdout.strip()})
            json.dump(meta, open(os.path.join(dst, "meta.json"), "w"), indent=1)
    except Exception as e:
        res["error"] = repr(e)
    finally:
        subprocess.run(["git", "-C", "/repo", "worktree", "remove", "--force", wt], capture_output=True)
    return res

with cf.ThreadPoolExecutor(max_workers=6) as ex:
    for r in ex.map(run, jobs):
        print(json.dumps({k: r[k] for k in r if k != "demo_patched_tail"}))
