#!/venv/bin/python
"""Regenerate sa/baseline_symbols.json from /repo's current tree (the tree the rule tables were confirmed on).
Run only when the rules have been re-confirmed against a new upstream baseline."""
import ast, json, os, sys
sys.path.insert(0, os.path.dirname(os.path.dirname(os.path.abspath(__file__))))
from sa import canon
from sa.model import PKG_DIR

out = {}
srcs = {}
for root, dirs, files in sorted(os.walk(PKG_DIR)):
    dirs.sort()
    for fn in sorted(files):
        if not fn.endswith(".py"):
            continue
        path = os.path.join(root, fn)
        parts = os.path.relpath(path, os.path.dirname(PKG_DIR))[:-3].split(os.sep)
        if parts[-1] == "__init__":
            parts = parts[:-1]
        name = ".".join(parts)
        text = open(path, encoding="utf-8").read()
        tree = ast.parse(text)
        out[name] = canon.symbols_of(tree, name)
        if name in ("dateutil.tz.win", "dateutil.tzwin", "dateutil.zoneinfo.rebuild"):
            continue
        # source of every top-level function and method (the reference spelling for the equivalence prover)
        def visit(body, prefix):
            for st in body:
                if isinstance(st, (ast.FunctionDef, ast.AsyncFunctionDef)):
                    seg = ast.get_source_segment(text, st, padded=True)
                    first = min([st.lineno] + [d.lineno for d in st.decorator_list])
                    lines = text.splitlines()[first - 1:st.end_lineno]
                    srcs.setdefault(name, {}).setdefault(prefix + "." + st.name, []).append({"lineno": first, "text": "\n".join(lines)})
                elif isinstance(st, ast.ClassDef):
                    visit(st.body, prefix + "." + st.name)
                elif isinstance(st, (ast.If, ast.Try)):
                    for fld in ("body", "orelse", "finalbody"):
                        visit(getattr(st, fld, []) or [], prefix)
                    for h in getattr(st, "handlers", []):
                        visit(h.body, prefix)
        visit(tree.body, name)
json.dump(out, open(canon.BASELINE_PATH, "w"), indent=0, sort_keys=True)
json.dump(srcs, open(canon.BASELINE_SRC_PATH, "w"), indent=0, sort_keys=True)
print("wrote", canon.BASELINE_SRC_PATH, sum(len(v) for v in srcs.values()), "functions")
print("wrote", canon.BASELINE_PATH, len(out), "modules", sum(len(v["locals"]) for v in out.values()), "functions")
