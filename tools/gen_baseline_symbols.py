#!/venv/bin/python
"""Regenerate sa/baseline_symbols.json from /repo's current tree (the tree the rule tables were confirmed on).
Run only when the rules have been re-confirmed against a new upstream baseline."""
import ast, json, os, sys
sys.path.insert(0, os.path.dirname(os.path.dirname(os.path.abspath(__file__))))
from sa import canon
from sa.model import PKG_DIR

out = {}
for root, dirs, files in sorted(os.walk(PKG_DIR)):
    dirs.sort()
    for fn in sorted(files):
        if not fn.endswith(".py"):
            continue
        path = os.path.join(root, fn)
        parts = os.path.relpath(path, os.path.dirname(PKG_DIR))[:-3].split(os.sep)
        if parts[-1] == "__init__":
            parts = parts[:-1]
        name = ".".join(parts)
        out[name] = canon.symbols_of(ast.parse(open(path, encoding="utf-8").read()), name)
json.dump(out, open(canon.BASELINE_PATH, "w"), indent=0, sort_keys=True)
print("wrote", canon.BASELINE_PATH, len(out), "modules", sum(len(v["locals"]) for v in out.values()), "functions")
