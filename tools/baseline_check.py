#!/venv/bin/python
"""Run /repo's pinned suite and compare the set of passing tests with BASELINE.json stable_pass.
Usage: tools/baseline_check.py [repo_dir]   (development helper; not a registered check)"""
import json, subprocess, sys, tempfile, os
import xml.etree.ElementTree as ET
repo = sys.argv[1] if len(sys.argv) > 1 else "/repo"
base = json.load(open("/root/.vp/BASELINE.json"))
want = set(base["stable_pass"])
fd, xml = tempfile.mkstemp(suffix=".xml"); os.close(fd)
env = dict(os.environ); env.pop("DATEUTIL_VERIF", None)
subprocess.run(["/venv/bin/python", "-m", "pytest", "-ra", "-q", "-p", "no:cacheprovider", "--timeout=900",
                "--continue-on-collection-errors", "--junitxml=" + xml], cwd=repo, env=env,
               stdout=subprocess.DEVNULL, stderr=subprocess.DEVNULL)
got = set()
for tc in ET.parse(xml).getroot().iter("testcase"):
    if not any(c.tag in ("failure", "error", "skipped") for c in tc):
        got.add("%s::%s" % (tc.get("classname"), tc.get("name")))
os.unlink(xml)
missing = sorted(want - got)
print("baseline stable_pass=%d passing_now=%d missing=%d extra=%d" % (len(want), len(got), len(missing), len(got - want)))
for m in missing[:20]:
    print("  MISSING", m)
sys.exit(1 if missing else 0)
