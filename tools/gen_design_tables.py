#!/venv/bin/python
"""Regenerate the machine-generated tables of DESIGN.md (between BEGIN/END GENERATED markers) from the evidence files,
seeded/RESULTS.json, seeded/*/meta.json and known_findings.json."""
import json, os, glob, re
V = os.path.dirname(os.path.dirname(os.path.abspath(__file__)))
out = []
out.append("#### Rules armed per property (from the evidence files of the last run)\n")
out.append("| Property | Rules (obligations on the current tree) | Suppressions |")
out.append("|---|---|---|")
for f in sorted(glob.glob(os.path.join(V, "evidence", "C*.json"))):
    e = json.load(open(f))
    c = e["coverage"]
    rules = ", ".join("%s (%d)" % (r, d["obligations"]) for r, d in sorted(c["per_rule"].items()))
    out.append("| %s | %s | %d |" % (e["property_id"], rules, len(c.get("suppressions", []))))
out.append("")
res = json.load(open(os.path.join(V, "seeded", "RESULTS.json")))
out.append("#### Seeded changes (independent sub-agents; each confirmed in a scratch worktree) and the checks that catch them\n")
out.append("| Seeded change | What it breaks | Caught by (rules) |")
out.append("|---|---|---|")
caught = 0
for r in res["results"]:
    meta = {}
    try:
        meta = json.load(open(os.path.join(V, "seeded", r["id"], "meta.json")))
    except Exception:
        pass
    summ = (meta.get("summary") or "").replace("|", "/").replace("\n", " ")[:170]
    if r["fired"]:
        caught += 1
    out.append("| %s | %s | %s |" % (r["id"], summ, ", ".join(r["rules"]) if r["fired"] else "**not caught** (value-level; see 6.5)"))
out.append("")
out.append("Caught %d of %d." % (caught, len(res["results"])))
try:
    ben = json.load(open(os.path.join(V, "seeded", "BENIGN.json")))
    rows = ben.get("refactorings", [])
    out.append("")
    out.append("#### Behaviour-preserving refactorings (independent sub-agents; pinned suite unchanged with each) and the checks' verdicts\n")
    out.append("| Refactoring | What was rewritten | Verdict of all 20 checks |")
    out.append("|---|---|---|")
    silent = 0
    for r in rows:
        meta = {}
        try:
            meta = json.load(open(os.path.join(V, "seeded", "benign", r["id"], "meta.json")))
        except Exception:
            pass
        sm = (meta.get("summary") or "").replace("|", "/").replace("\n", " ")[:170]
        ok = not r.get("alarms")
        silent += ok
        out.append("| %s | %s | %s |" % (r["id"], sm, "silent" if ok else "**false alarm**: " + "; ".join(a[:80] for a in r["alarms"][:2])))
    out.append("")
    out.append("Silent on %d of %d." % (silent, len(rows)))
except Exception as e:
    out.append("(no benign results: %s)" % e)
text = "\n".join(out)
p = os.path.join(V, "DESIGN.md")
s = open(p).read()
a, b = "<!-- BEGIN GENERATED -->", "<!-- END GENERATED -->"
if a in s and b in s:
    s = s[:s.index(a) + len(a)] + "\n" + text + "\n" + s[s.index(b):]
    open(p, "w").write(s)
    print("tables regenerated: %d rows" % len(res["results"]))
else:
    print("markers not found")
