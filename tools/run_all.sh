#!/bin/bash
# Development helper: run every registered check (tier from $1, default quick) and summarise exit codes.
tier=${1:-quick}
cd /verif
for p in $(/venv/bin/python -c "import json;print(' '.join(c['property_id'] for c in json.load(open('MANIFEST.json'))['checks']))"); do
  out=$(/venv/bin/python sa/check.py $p --tier $tier 2>&1); rc=$?
  echo "$p rc=$rc $(echo "$out" | grep -E "^C[0-9]+ tier|self-validation" | tr '\n' ' ')"
  if [ $rc -ne 0 ]; then echo "$out" | grep -E "ANALYSIS-ERROR|VIOLATION|construct" | head -10; fi
done
