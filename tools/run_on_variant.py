#!/venv/bin/python
"""Development helper: run checks against a scratch copy of /repo/src with a patch applied (or a commit reverted).
   tools/run_on_variant.py [--patch FILE] [--reverse-commit SHA] [--all | C01 C02 ...]
The copy lives under a mkdtemp directory outside /repo and /verif and is removed afterwards; evidence of these runs
goes to a temp dir, never to /verif/evidence.  Nothing from the copy is executed."""
import os, shutil, subprocess, sys, tempfile, json
V = os.path.dirname(os.path.dirname(os.path.abspath(__file__)))
args = sys.argv[1:]
patch = None; rev = None; props = []
i = 0
while i < len(args):
    if args[i] == "--patch": patch = os.path.abspath(args[i+1]); i += 2
    elif args[i] == "--reverse-commit": rev = args[i+1]; i += 2
    elif args[i] == "--all":
        props = [json.loads(l)["id"] for l in open(os.path.join(V, "properties.jsonl"))]; i += 1
    else: props.append(args[i]); i += 1
props = [p for p in props if os.path.exists(os.path.join(V, "sa", "props", p.lower() + ".py"))]
tmp = tempfile.mkdtemp(prefix="sa_var_")
rc_all = {}
try:
    shutil.copytree("/repo/src", os.path.join(tmp, "src"))
    if patch:
        r = subprocess.run(["patch", "-p1", "-s", "-d", tmp, "-i", patch], capture_output=True, text=True)
        if r.returncode != 0:
            print("PATCH FAILED", r.stdout, r.stderr); sys.exit(3)
    if rev:
        d = subprocess.run(["git", "-C", "/repo", "show", rev, "--", "src"], capture_output=True, text=True).stdout
        r = subprocess.run(["patch", "-R", "-p1", "-s", "-d", tmp], input=d, capture_output=True, text=True)
        if r.returncode != 0:
            print("REVERSE FAILED", r.stdout, r.stderr); sys.exit(3)
    env = dict(os.environ, VERIF_REPO=tmp, VERIF_EVIDENCE_DIR=os.path.join(tmp, "evidence"))
    for p in props:
        r = subprocess.run(["/venv/bin/python", os.path.join(V, "sa", "check.py"), p], env=env, capture_output=True, text=True, cwd=V)
        rc_all[p] = r.returncode
        if r.returncode != 0:
            print("== %s rc=%d" % (p, r.returncode))
            print(r.stdout.replace(tmp, "<variant>")[-3000:])
            if r.returncode == 2: print(r.stderr[-1500:])
finally:
    shutil.rmtree(tmp, ignore_errors=True)
print("SUMMARY", " ".join("%s=%d" % kv for kv in sorted(rc_all.items())))
